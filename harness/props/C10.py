"""C10 — results do not depend on dask scheduling, threading or chunking."""
from __future__ import annotations
import ast
import itertools
import json
import threading
import time
import numpy as np

import common
from common import zl, ql, bl, lst, zlist, qlist, frac, natl
from translate import Anchors, Untranslatable
from props.C11 import norm

PID = "C10"
AB = "acryo/alignment/_base.py"
BA = "acryo/backend/_api.py"
LB = "acryo/loader/_base.py"


def anchors(a: Anchors):
    a.state("models_hold_no_per_call_state", "acryo/alignment/_base.py",
            {"TomographyInput": ["_cutoff", "_tilt_model"], "RotationImplemented": ["_n_rotations", "quaternions"],
             "BaseAlignmentModel": ["_mask", "_n_templates", "_ndim", "_template", "_template_mask_cache", "class:_DUMMY_POS", "class:_DUMMY_QUAT"],
             "TemplateMaskCache": ["_dict"]},
            "alignment models keep only their construction parameters and the template/mask cache (the modelled shared state)")
    a.state("concrete_models_hold_no_state", "acryo/alignment/_concrete.py",
            {"ZNCCAlignment": [], "PCCAlignment": [], "NCCAlignment": [], "FSCAlignment": []}, "the four concrete models add no attributes")
    a.state("loaders_hold_no_derived_state", "acryo/loader/_loader.py", {"SubtomogramLoader": ["_image", "_molecules"]},
            "a SubtomogramLoader stores its image and molecules only")
    a.state("batch_holds_no_derived_state", "acryo/loader/_batch.py", {"BatchLoader": ["_images", "_molecules"]},
            "a BatchLoader stores its images and molecules only")
    AC = "acryo/alignment/_concrete.py"
    ABS = "acryo/alignment/_base.py"
    a.pure("tasks_do_not_mutate_shared_state",
           [(AC, f"{c}.{m}") for c in ("PCCAlignment", "NCCAlignment", "ZNCCAlignment", "FSCAlignment") for m in ("_optimize", "_score", "_landscape")]
           + [(ABS, q) for q in ("TomographyInput._get_missing_wedge_mask", "TomographyInput.pre_transform", "BaseAlignmentModel._optimize_multiple",
                                 "BaseAlignmentModel._landscape_multiple", "BaseAlignmentModel._optimize_single", "TomographyInput.masked_difference")]
           + [("acryo/_utils.py", q) for q in ("prepare_affine", "prepare_affine_cornersafe")] + [("acryo/backend/_api.py", "Backend.rotated_crop")],
           "per-molecule task bodies change neither their arguments (sub-volume, cached template, mask) nor the shared model")
    a.fact("backend_defines_eq", BA, "Backend", "class Backend defines __eq__ next to __hash__",
           lambda cls: any(isinstance(n, ast.FunctionDef) and n.name == "__eq__" for n in cls.body)
           and any(isinstance(n, ast.FunctionDef) and n.name == "__hash__" for n in cls.body))

    def cache_shape(cls, src):
        t = norm(ast.unparse(cls))
        need = ["if(out:=self._dict.get(backend)):returnout", "if(val:=next(iter(self._dict.values()),None)):",
                "self._dict[backend]=out=(backend.asarray(val[0]),backend.asarray(val[1]))", "returnNone",
                "defset(self,backend:Backend,template:_Template,mask:_Mask):self._dict[backend]=(template,mask)"]
        miss = [x for x in need if x not in t]
        if miss:
            raise Untranslatable("TemplateMaskCache changed: " + str(miss))
        return "Definition cache_steps_as_modelled : bool := true."
    a.raw("cache_steps_as_modelled", AB, "TemplateMaskCache", "get: dict.get / iter(values) / next / setitem; set: setitem", cache_shape)
    a.fact("constructor_fills_cache", AB, "BaseAlignmentModel.__init__", "self._get_template_and_mask_input(Backend()) at construction",
           lambda fn: "self._template_mask_cache=TemplateMaskCache()" in norm(ast.unparse(fn))
           and "self._get_template_and_mask_input(Backend())" in norm(ast.unparse(fn)))
    a.expr("landscape_declared_len", LB, "LoaderBase.construct_landscape",
           ("find", lambda n: isinstance(n, ast.Assign) and ast.unparse(n.targets[0]) == "task_shape", 1, "task_shape (single template)"),
           {"m": "Q"}, env={"np.ceil(_max_shifts_px).astype(np.int32)": ("(Qceiling m)", "Z")}, want="Z",
           post=lambda n: n.value.args[0] if isinstance(n.value, ast.Call) and ast.unparse(n.value.func) == "tuple" else n.value)


# --------------------------------------------------------------------------
STEP_TIMEOUT = 30      # seconds a worker may take to reach its next atomic step before the replay is declared stuck


class Sched:
    """lock-step scheduler: one 'go' = one atomic dict operation of one worker"""
    def __init__(self, n):
        self.go = [threading.Event() for _ in range(n)]
        self.arrived = [threading.Event() for _ in range(n)]
        self.finished = [False] * n
        self.local = threading.local()

    def gate(self):
        tid = getattr(self.local, "tid", None)
        if tid is None:
            return
        self.arrived[tid].set()
        self.go[tid].wait()
        self.go[tid].clear()


def make_dict(sched):
    class GatedValues:
        def __init__(self, d):
            self.d = d

        def __iter__(self):
            sched.gate()                      # Iter
            it = dict.values(self.d).__iter__()
            outer = self

            class It:
                def __iter__(s):
                    return s

                def __next__(s):
                    sched.gate()              # Next
                    return next(it)           # real CPython: RuntimeError if the size changed
            return It()

    class GatedDict(dict):
        def get(self, k, default=None):
            sched.gate()                      # Get
            return dict.get(self, k, default)

        def values(self):
            return GatedValues(self)

        def __setitem__(self, k, v):
            sched.gate()                      # Insert / Set
            dict.__setitem__(self, k, v)
    return GatedDict


class KeyNoEq:
    """stands for a Backend without __eq__ (pre-fix): hash of the module, identity equality"""
    def __init__(self, i):
        self.i = i

    def __hash__(self):
        return hash(np)

    def asarray(self, x):
        return x


def replay(keys_kind, keys, ncalls, schedule):
    """run the schedule on the real TemplateMaskCache; returns (crashed flags, returns per thread, dict size)"""
    from acryo.alignment._base import TemplateMaskCache
    from acryo.backend import Backend
    n = len(keys)
    sched = Sched(n)
    cache = TemplateMaskCache()
    CANON = ("template", "mask")
    first = Backend() if keys_kind == "backend" else KeyNoEq(0)
    cache._dict[first] = CANON          # what the constructor of an alignment model leaves behind
    GD = make_dict(sched)
    gd = GD()
    for k, v in cache._dict.items():
        dict.__setitem__(gd, k, v)
    cache._dict = gd
    ks = [Backend() for _ in keys] if keys_kind == "backend" else [KeyNoEq(k) for k in keys]
    crashed = [False] * n
    rets = [[] for _ in range(n)]

    def worker(tid):
        sched.local.tid = tid
        try:
            for c in range(ncalls + 1):
                out = cache.get(ks[tid])
                if out is None:
                    sched.gate()            # Compute
                    cache.set(ks[tid], *CANON)
                    out = CANON
                rets[tid].append(tuple(out) == CANON)
                if c < ncalls:
                    sched.gate()            # Done -> next call
        except RuntimeError:
            crashed[tid] = True
        finally:
            sched.finished[tid] = True
            sched.arrived[tid].set()

    ths = [threading.Thread(target=worker, args=(i,), daemon=True) for i in range(n)]
    for t in ths:
        t.start()
    stuck = False
    for i in range(n):
        stuck = stuck or not sched.arrived[i].wait(STEP_TIMEOUT)
    for tid in schedule:
        if stuck:
            break
        if tid >= n or sched.finished[tid]:
            continue
        sched.arrived[tid].clear()
        sched.go[tid].set()
        stuck = not sched.arrived[tid].wait(STEP_TIMEOUT)
    # let everybody finish
    for i in range(n):
        while not stuck and not sched.finished[i]:
            sched.arrived[i].clear()
            sched.go[i].set()
            stuck = not sched.arrived[i].wait(STEP_TIMEOUT)
    if stuck:
        # a worker did not reach its next atomic step: the cache blocks on something the lock-step replay does not model
        # (e.g. a lock held across steps).  The workers are daemon threads; release them all and give up on this replay.
        for i in range(n):
            for _ in range(200):
                sched.go[i].set()
        raise ReplayStuck()
    for t in ths:
        t.join(5)
    return crashed, rets, len(gd)


class ReplayStuck(Exception):
    pass


def model_steps_needed(ncalls):
    return 8 * (ncalls + 1)


def corr_cache(ck, rng):
    cases = []
    n = 60 if ck.tier == "quick" else 800
    for i in range(n):
        kind = "backend" if i % 2 == 0 else "noeq"
        nth = int(rng.integers(2, 4))
        ncalls = int(rng.integers(0, 2))
        keys = list(range(1, nth + 1))
        L = int(rng.integers(3, 8 * nth))
        schedule = [int(x) for x in rng.integers(0, nth, size=L)]
        if i % 7 == 1:
            schedule = [0, 0, 1, 1, 1, 1, 0] + schedule      # the refuted witness
        try:
            crashed, rets, size = replay(kind, keys, ncalls, schedule)
        except ReplayStuck:
            ck.broken.append({"kind": "correspondence", "name": "cache_schedules",
                              "detail": "the lock-step replay of TemplateMaskCache.get/set does not terminate: the cache blocks between its atomic dict steps "
                                        f"(schedule {schedule[:12]}, {nth} threads); the cache model no longer describes the code"})
            return
        # the replay lets every thread run to completion after the schedule: extend the model schedule the same way (round robin, in order)
        tail = []
        for t in range(nth):
            tail += [t] * model_steps_needed(ncalls)
        eqdef = kind == "backend"
        cases.append((f"(check_schedule {bl(eqdef)} {lst([natl(k) for k in keys])} {natl(ncalls)} {lst([natl(x) for x in schedule + tail])} "
                      f"{lst([bl(c) for c in crashed])} {lst([lst([bl(b) for b in r]) for r in rets])} {natl(size)})",
                      {"keys": kind, "threads": nth, "calls": ncalls + 1, "schedule": schedule, "crashed": crashed, "dict_size": size}))
    ck.corr_run("cache_schedules", ["AcryoGen.Anchors_C10", "Acryo.C10.Model"], cases, shard=200, observable=False,
                classes={"with Backend keys (current __eq__)": n // 2, "identity keys (pre-fix behaviour)": n - n // 2})
    # on the current code, no schedule may crash or grow the cache
    bad = [c for _, c in cases if c["keys"] == "backend" and (any(c["crashed"]) or c["dict_size"] != 1)]
    for c in bad[:3]:
        ck.violation(what="TemplateMaskCache raised / grew under a thread interleaving", inp=c, key={"site": "cache", "symptom": "race"},
                     oracle="corr:cache_schedules")


def corr_shapes(ck, rng):
    from acryo import SubtomogramLoader, Molecules
    from acryo.alignment import ZNCCAlignment, NCCAlignment, PCCAlignment, FSCAlignment
    cases = []
    tomo = rng.normal(size=(30, 30, 30)).astype(np.float32)
    tmpl = rng.normal(size=(9, 9, 9)).astype(np.float32)
    ld = SubtomogramLoader(tomo, Molecules(np.array([[15.0, 15, 15], [14, 16, 15]])), order=1, output_shape=(9, 9, 9))
    combos = [(1.0, 1), (2.0, 1), (1.5, 1), (1.0, 3), (0.6, 2), (2.3, 1), (3.0, 2)] if ck.tier == "quick" else \
             [(m, u) for m in (0.0, 0.5, 1.0, 1.5, 2.0, 2.3, 3.0) for u in (1, 2, 3)]
    for m, u in combos:
        for name, M in (("zncc", ZNCCAlignment), ("ncc", NCCAlignment), ("pcc", PCCAlignment), ("fsc", FSCAlignment)):
            if name == "fsc" and (ck.tier == "quick" and (m, u) not in ((1.0, 1), (1.5, 1))):
                continue
            arr = ld.construct_landscape(tmpl, max_shifts=m, alignment_model=M, upsample=u)
            declared = arr.shape
            try:
                actual = arr.compute().shape
            except Exception as e:  # noqa
                actual = (-1,) * 4
            c = {"model": name, "max_shift_px": m, "upsample": u, "declared": list(declared), "computed": list(actual)}
            cases.append((f"(check_shape {bl(name == 'fsc')} {ql(frac(np.float32(m)))} {zl(u)} {zl(declared[-1])} {zl(actual[-1])})", c))
            ck.oracle_count("declared_vs_computed_shape", 1, 1)
            if tuple(declared) != tuple(actual):
                integer = float(m).is_integer() and u == 1
                ck.violation(what=f"construct_landscape declares shape {tuple(declared)} but computing yields {tuple(actual)}", inp=c,
                             key={"site": "construct_landscape", "class": "declared-ceil-vs-actual", "integer_limit_no_upsample": integer},
                             oracle="declared_vs_computed_shape")
    ck.corr_run("landscape_shapes", ["AcryoGen.Anchors_C10", "Acryo.C10.Model"], cases, shard=400, observable=False)
    # loading shape, including N = 0
    for nm in (1, 3, 5):
        pos = np.full((nm, 3), 15.0)
        l2 = SubtomogramLoader(tomo, Molecules(pos), order=1, output_shape=(4, 5, 6))
        ck.oracle_count("loading_shape", 1, 1)
        try:
            d = l2.construct_dask()
            ok = d.shape == (nm, 4, 5, 6) and d.compute().shape == (nm, 4, 5, 6)
            detail = f"declared {d.shape}"
        except Exception as e:  # noqa
            ok, detail = False, f"raised {type(e).__name__}: {e}"
        if not ok:
            ck.violation(what=f"construct_dask() with {nm} molecules: {detail}", inp={"n": nm},
                         key={"site": "construct_dask", "empty": nm == 0}, oracle="loading_shape")


def oracle_schedulers(ck, rng):
    """same results under synchronous / threaded (1..16) / random-order schedulers, numpy vs dask chunkings"""
    import dask
    import dask.array as da
    from acryo import SubtomogramLoader, Molecules
    from acryo.alignment import ZNCCAlignment
    from scipy.spatial.transform import Rotation
    from scipy import ndimage as ndi
    import sys
    tomo = ndi.gaussian_filter(rng.normal(size=(30, 32, 34)), 1.0).astype(np.float32)
    tmpl = ndi.gaussian_filter(rng.normal(size=(7, 7, 7)), 1.0).astype(np.float32)
    nm = 6
    mol = Molecules(rng.uniform(9, 20, size=(nm, 3)), Rotation.random(nm, random_state=3))

    def results(img, sched_kw):
        ld = SubtomogramLoader(img, mol, order=1, output_shape=(7, 7, 7))
        with dask.config.set(**sched_kw):
            a = ld.asnumpy()
            avg = ld.average()
            al = ld.align(tmpl, max_shifts=1.5, rotations=((10, 10), (0, 0), (0, 0)))
            sc = ld.score([tmpl])[0]
            lnd = ld.construct_landscape(tmpl, max_shifts=1.0).compute()
            ap = ld.apply([np.mean, np.std]).to_numpy()
            # a loader derived after the original has been used (binning, head): numpy- and dask-backed must still agree
            bn = ld.binning(2, compute=False)
            bavg = np.asarray(bn.replace(output_shape=(3, 3, 3)).average())
            hd = np.asarray(ld.head(3).asnumpy())
        return a, avg, al.molecules.pos, al.molecules.rotator.as_quat(), np.asarray(sc), lnd, ap, bavg, hd

    def random_order_get(dsk, keys, **kw):
        from dask.local import get_sync
        return get_sync(dsk, keys, **kw)

    base = results(tomo, dict(scheduler="synchronous"))
    configs = [("threads-1", dict(scheduler="threads", num_workers=1)), ("threads-4", dict(scheduler="threads", num_workers=4)),
               ("threads-16", dict(scheduler="threads", num_workers=16))]
    if ck.tier != "quick":
        configs += [(f"threads-{k}", dict(scheduler="threads", num_workers=k)) for k in (2, 3, 8, 11)]
    chunkings = [None, (10, 10, 10), (30, 5, 34), (7, 32, 3)] if ck.tier == "quick" else [None, (10, 10, 10), (30, 5, 34), (7, 32, 3), (1, 32, 34), (15, 16, 17), (4, 4, 4)]
    old = sys.getswitchinterval()
    sys.setswitchinterval(1e-6)
    try:
        for cname, kw in configs:
            for ch in chunkings:
                img = tomo if ch is None else da.from_array(tomo, chunks=ch)
                try:
                    got = results(img, kw)
                    names = ["asnumpy", "average", "align.pos", "align.rot", "score", "landscape", "apply", "binning(2).average after use", "head(3).asnumpy after use"]
                    bad = [n_ for n_, x, y in zip(names, base, got) if not np.allclose(x, y, atol=1e-5, rtol=1e-5)]
                    detail = f"differs from the synchronous numpy run in {bad}" if bad else ""
                except Exception as e:  # noqa
                    bad, detail = ["raised"], f"raised {type(e).__name__}: {e}"
                ck.oracle_count("scheduler_chunking_matrix", 1, 1)
                if bad:
                    ck.violation(what=f"scheduler {cname}, chunks {ch}: {detail}", inp={"scheduler": cname, "chunks": ch},
                                 key={"site": "schedulers", "what": bad[0]}, oracle="scheduler_chunking_matrix")
    finally:
        sys.setswitchinterval(old)


def oracle_batch_backing(ck, rng):
    """a batch gives the same results whichever of its tomograms are numpy- or dask-backed, lazily or eagerly binned"""
    import dask.array as da
    from acryo import BatchLoader, Molecules
    tomos = [rng.normal(size=(16, 16, 16)).astype(np.float32) + 3.0 * j for j in range(3)]
    mols = [Molecules(rng.integers(5, 10, size=(2, 3)).astype(float) + 0.5) for _ in range(3)]

    def build(backing):
        b = BatchLoader(order=1, scale=1.0, output_shape=(2, 2, 2))
        for j, bk in enumerate(backing):
            b.add_tomogram(da.from_array(tomos[j], chunks=(8, 5, 16)) if bk == "da" else tomos[j], mols[j], image_id=j)
        return b

    def results(b):
        out = [np.asarray(b.asnumpy()), np.asarray(b.average())]
        for compute in (False, True):
            lb = b.binning(2, compute=compute).replace(output_shape=(2, 2, 2))
            out += [np.asarray(lb.asnumpy()), np.asarray(lb.average()), lb.apply(np.mean).to_numpy()]
        return out
    ref = results(build(["np", "np", "np"]))
    import itertools
    combos = [c for c in itertools.product(["np", "da"], repeat=3) if "da" in c]
    for backing in (combos if ck.tier != "quick" else combos[::2] + [("np", "da", "np")]):
        ck.oracle_count("batch_backing_matrix", 1, 1)
        try:
            got = results(build(list(backing)))
            names = ["asnumpy", "average", "binning(lazy).asnumpy", "binning(lazy).average", "binning(lazy).apply", "binning(compute).asnumpy",
                     "binning(compute).average", "binning(compute).apply"]
            bad = [n_ for n_, x, y in zip(names, ref, got) if x.shape != y.shape or not np.allclose(x, y, atol=1e-5)]
            detail = f"differs from the all-numpy batch in {bad}" if bad else ""
        except Exception as e:  # noqa
            bad, detail = ["raised"], f"raised {type(e).__name__}: {str(e)[:150]}"
        if bad:
            ck.violation(what=f"batch with tomograms backed by {list(backing)}: {detail}", inp={"backing": list(backing)},
                         key={"site": "batch-backing", "what": bad[0]}, oracle="batch_backing_matrix")


def oracle_imread_and_mock(ck, rng):
    """(a) tomograms read lazily from a file with any chunking report the shape they really have, and loaders on them equal loaders on the
    array; (b) a MockLoader with projection noise gives the same sub-volumes whichever scheduler runs it, twice in a row, and for
    load(i) vs asnumpy()[i]"""
    import dask, tempfile, shutil, os
    import mrcfile
    from acryo import SubtomogramLoader, Molecules, imread, MockLoader
    from scipy.spatial.transform import Rotation
    d = tempfile.mkdtemp(prefix="c10", dir=common.WORKROOT)
    try:
        vol = rng.normal(size=(20, 24, 28)).astype(np.float32)
        path = os.path.join(d, "t.mrc")
        with mrcfile.new(path, overwrite=True) as f:
            f.set_data(vol)
            f.voxel_size = 10.0
        # molecules near the far faces, so that the declared shape matters for the padding
        mol = Molecules(np.array([[17.5, 21.5, 25.5], [10.0, 12.0, 14.0], [18.0, 3.0, 26.0]]), Rotation.random(3, random_state=2))
        ref = SubtomogramLoader(vol, mol, order=1, output_shape=(5, 5, 5)).asnumpy()
        for chunks in ("auto", (16, 16, 16), (7, 24, 9), (20, 5, 28), (8, 8, 8)):
            ck.oracle_count("imread_chunks", 1, 1)
            try:
                ldr = imread(path, mol, order=1, scale=1.0, output_shape=(5, 5, 5), chunks=chunks)
                lazy = ldr.image
                real = np.asarray(lazy.compute()).shape
                detail = "" if tuple(lazy.shape) == vol.shape == real else f"declares shape {tuple(lazy.shape)}, computing it yields {real}, the file holds {vol.shape}"
                if not detail:
                    got = ldr.asnumpy()
                    if not np.allclose(got, ref, atol=1e-5):
                        detail = f"sub-volumes differ from those of the in-memory array by up to {np.abs(got - ref).max():.3f}"
            except Exception as e:  # noqa
                detail = f"raised {type(e).__name__}: {str(e)[:150]}"
            if detail:
                ck.violation(what=f"imread(..., chunks={chunks}): {detail}", inp={"shape": list(vol.shape), "chunks": chunks},
                             key={"site": "imread", "symptom": detail.split(" ")[0]}, oracle="imread_chunks")
    finally:
        shutil.rmtree(d, ignore_errors=True)
    # (b)
    tmpl = np.zeros((9, 9, 9), dtype=np.float32); tmpl[3:6, 2:7, 4:6] = 1.0
    molm = Molecules(rng.normal(size=(4, 3)) * 0.5, Rotation.random(4, random_state=5))
    mk = lambda: MockLoader(tmpl, molm, noise=0.3, degrees=np.linspace(-60, 60, 7), order=1)
    with dask.config.set(scheduler="synchronous"):
        base = np.asarray(mk().asnumpy())
        again = np.asarray(mk().asnumpy())
        single = np.stack([np.asarray(mk().load(i)) for i in range(4)])
    fails = []
    if not np.allclose(base, again, atol=1e-6): fails.append("two synchronous evaluations differ")
    if not np.allclose(base, single, atol=1e-6): fails.append("load(i) differs from asnumpy()[i]")
    for kw in (dict(scheduler="threads", num_workers=4), dict(scheduler="processes", num_workers=2)):
        try:
            with dask.config.set(**kw):
                other = np.asarray(mk().asnumpy())
            if not np.allclose(base, other, atol=1e-6): fails.append(f"{kw['scheduler']} scheduler differs from synchronous by up to {np.abs(base - other).max():.3f}")
        except Exception as e:  # noqa
            fails.append(f"{kw['scheduler']} scheduler raised {type(e).__name__}: {str(e)[:100]}")
    ck.oracle_count("mock_loader_schedulers", 1, 1)
    for fl in fails:
        ck.violation(what=f"MockLoader(noise=0.3, degrees=...): {fl}", inp={"noise": 0.3, "tilts": 7}, key={"site": "mock-loader", "symptom": fl.split(" ")[0]},
                     oracle="mock_loader_schedulers")


class SlowWedge:
    """a user-defined tilt model whose mask construction takes a while (I/O bound), so that several worker threads are
    inside the shared alignment model at the same time: makes interleavings on shared model state reproducible"""
    _base = None

    def __new__(cls, tilt_range=(-40.0, 40.0), delay=0.02):
        from acryo.tilt import TiltSeriesModel, single_axis
        if SlowWedge._base is None:
            class _SlowWedge(TiltSeriesModel):
                def __init__(self, tilt_range, delay):
                    self._inner = single_axis(tilt_range)
                    self._delay = delay

                def create_mask(self, rotator, shape):
                    time.sleep(self._delay)
                    return self._inner.create_mask(rotator, shape)
            SlowWedge._base = _SlowWedge
        return SlowWedge._base(tilt_range, delay)


def oracle_shared_state(ck, rng):
    """results must not depend on what other tasks do to the shared alignment model: threads with forced overlap, and processes
    (the task graph, alignment model included, must survive pickling)"""
    import dask
    from acryo import SubtomogramLoader, Molecules
    from acryo.alignment import ZNCCAlignment
    from scipy.spatial.transform import Rotation
    img = rng.normal(size=(40, 40, 40)).astype(np.float32)
    shape = (9, 9, 9)
    tmpl = rng.normal(size=shape).astype(np.float32)

    def loader(n, n_orient):
        base = Rotation.random(n_orient, random_state=int(rng.integers(0, 1000))).as_quat()
        rot = Rotation.from_quat(base[((np.arange(n) + 2) // 3) % n_orient])
        return SubtomogramLoader(img, Molecules(rng.uniform(14, 26, size=(n, 3)), rot), order=1, output_shape=shape)

    def score(ld, tilt):
        return np.asarray(ld.score([tmpl], alignment_model=ZNCCAlignment, tilt=tilt)[0])

    def align(ld, tilt):
        out = ld.align(tmpl, max_shifts=1.5, alignment_model=ZNCCAlignment, tilt=tilt, rotations=((10, 10), (10, 10), (0, 0)))
        return np.concatenate([out.molecules.pos, out.molecules.rotator.as_quat(), out.molecules.features["score"].to_numpy()[:, None]], axis=1)

    def landscape(ld, tilt):
        return np.asarray(ld.construct_landscape(tmpl, max_shifts=1.0, alignment_model=ZNCCAlignment, tilt=tilt).compute())

    plans = [("score", score, loader(12, 3), lambda: SlowWedge(), dict(scheduler="threads", num_workers=4)),
             ("align+rotations", align, loader(6, 6), lambda: SlowWedge(delay=0.005), dict(scheduler="threads", num_workers=4)),
             ("landscape", landscape, loader(6, 2), lambda: SlowWedge(), dict(scheduler="threads", num_workers=3)),
             ("score", score, loader(4, 2), lambda: (-40.0, 40.0), dict(scheduler="processes", num_workers=2)),
             ("align+rotations", align, loader(3, 3), lambda: (-40.0, 40.0), dict(scheduler="processes", num_workers=2))]
    if ck.tier != "quick":
        plans += [("score", score, loader(30, 30), lambda: (-40.0, 40.0), dict(scheduler="threads", num_workers=8)),
                  ("align+rotations", align, loader(12, 12), lambda: (-40.0, 40.0), dict(scheduler="threads", num_workers=8)),
                  ("landscape", landscape, loader(4, 4), lambda: (-40.0, 40.0), dict(scheduler="processes", num_workers=2))]
    for what, fn, ld, mk_tilt, kw in plans:
        ck.oracle_count("shared_model_state", 1, 1)
        with dask.config.set(scheduler="synchronous"):
            ref = fn(ld, mk_tilt())
        try:
            with dask.config.set(**kw):
                got = fn(ld, mk_tilt())
            bad = got.shape != ref.shape or not np.allclose(got, ref, atol=1e-5, rtol=1e-5)
            detail = f"{int((np.abs(got - ref).reshape(len(ref), -1).max(axis=1) > 1e-5).sum())} of {len(ref)} molecules differ from the synchronous result" if bad else ""
        except Exception as e:  # noqa
            bad, detail = True, f"raised {type(e).__name__}: {str(e)[:160]}"
        if bad:
            ck.violation(what=f"{what} with a missing-wedge model under {kw}: {detail}", inp={"operation": what, "scheduler": kw, "molecules": len(ld.molecules)},
                         key={"site": "shared-model-state", "scheduler": kw["scheduler"], "symptom": "raised" if "raised" in detail else "differs"},
                         oracle="shared_model_state")


def oracle_border_chunking(ck, rng):
    """molecules near the faces, edges and corners of the tomogram (their windows need padding), with and without corner_safe, order 1
    and 3: numpy tomogram, one-chunk and many-chunk dask tomograms give the same sub-volumes, averages and declared shapes"""
    import dask
    import dask.array as da
    from acryo import SubtomogramLoader, Molecules
    from scipy.spatial.transform import Rotation
    from scipy import ndimage as ndi
    tomo = (ndi.gaussian_filter(rng.normal(size=(20, 22, 24)), 1.0) * 10 + 50).astype(np.float32)
    D = np.array(tomo.shape)
    pos = [[1.5, 1.0, 2.0], [D[0] - 2.5, 10.0, 12.0], [10.0, D[1] - 1.5, D[2] - 2.0], [2.0, D[1] - 2.0, 11.5], [10.0, 11.0, 12.0], [D[0] - 2.0, D[1] - 2.5, D[2] - 1.5]]
    mol = Molecules(np.array(pos), Rotation.random(len(pos), random_state=int(rng.integers(0, 2**31))))
    chunkings = [tomo.shape, (10, 11, 12), (7, 5, 24), (4, 4, 4)]
    for order in (1, 3):
        for cs in (True, False):
            base = None
            for sched in ("synchronous", "threads"):
                for ch in [None] + chunkings:
                    img = tomo if ch is None else da.from_array(tomo, chunks=ch)
                    ld = SubtomogramLoader(img, mol, order=order, output_shape=(6, 5, 7), corner_safe=cs)
                    ck.oracle_count("border_chunking", 1, 1)
                    try:
                        with dask.config.set(scheduler=sched):
                            lazy = ld.construct_dask()
                            arr = np.asarray(lazy.compute())
                            one = [ld.construct_loading_tasks()[i] for i in range(len(pos))]
                            shapes_ok = tuple(lazy.shape) == arr.shape and all(tuple(t_.shape) == np.asarray(t_.compute()).shape for t_ in one[:3])
                            avg = np.asarray(ld.average())
                        got = (arr, avg)
                        bad = []
                        if not shapes_ok:
                            bad.append("a lazily constructed array declares another shape than it computes to")
                        if not np.all(np.isfinite(arr)):
                            bad.append("non-finite voxels")
                        if base is None:
                            base = got
                        else:
                            rows = [i for i in range(len(pos)) if not np.allclose(arr[i], base[0][i], atol=1e-4, rtol=1e-5)]
                            if rows:
                                bad.append(f"sub-volumes {rows} differ from the synchronous numpy run (max {max(float(np.abs(arr[i] - base[0][i]).max()) for i in rows):.3g})")
                            if not np.allclose(avg, base[1], atol=1e-4, rtol=1e-5):
                                bad.append("average differs from the synchronous numpy run")
                    except Exception as e:  # noqa
                        bad = [f"raised {type(e).__name__}: {e}"]
                    if bad:
                        ck.violation(what=f"order {order}, corner_safe={cs}, scheduler {sched}, chunks {ch}: " + "; ".join(bad), inp={"order": order, "corner_safe": cs,
                                     "scheduler": sched, "chunks": list(ch) if ch else None, "positions": pos}, key={"site": "border-chunking", "corner_safe": cs,
                                     "multi_chunk": bool(ch and tuple(ch) != tomo.shape)}, oracle="border_chunking")


def oracle_task_lists_together(ck, rng):
    """several task lists evaluated in one graph (several templates scored at once, several anonymous functions applied at once, templates x
    rotations in one landscape): every list keeps its own results, equal to those of the same list evaluated alone, and the lazily declared
    landscape shape is the computed one"""
    import dask
    from acryo import SubtomogramLoader, Molecules
    from acryo.alignment import ZNCCAlignment
    from scipy.spatial.transform import Rotation
    from scipy import ndimage as ndi
    tomo = ndi.gaussian_filter(rng.normal(size=(24, 24, 24)), 1.0).astype(np.float32)
    t0 = ndi.gaussian_filter(rng.normal(size=(7, 7, 7)), 1.0).astype(np.float32)
    t1 = ndi.gaussian_filter(rng.normal(size=(7, 7, 7)), 1.0).astype(np.float32)
    n = 5
    mol = Molecules(rng.uniform(8, 15, size=(n, 3)), Rotation.random(n, random_state=int(rng.integers(0, 2**31))))
    ld = SubtomogramLoader(tomo, mol, order=1, output_shape=(7, 7, 7))
    for sched in ("synchronous", "threads"):
        ck.oracle_count("task_lists_together", 1, 1)
        bad = []
        try:
            with dask.config.set(scheduler=sched):
                both = [np.asarray(x) for x in ld.score([t0, t1])]
                alone = [np.asarray(ld.score([t0])[0]), np.asarray(ld.score([t1])[0])]
                if not (np.allclose(both[0], alone[0], atol=1e-6) and np.allclose(both[1], alone[1], atol=1e-6)):
                    bad.append("score([t0, t1]) differs from score([t0]) and score([t1]) evaluated alone")
                sub = np.asarray(ld.asnumpy()).reshape(n, -1)
                ap = ld.apply([lambda a: float(a.max()), lambda a: float(a.min())], schema=["hi", "lo"]).to_numpy()
                if not np.allclose(ap, np.stack([sub.max(axis=1), sub.min(axis=1)], axis=1), atol=1e-5):
                    bad.append("apply with two anonymous functions: the columns are not (max, min) of each sub-volume")
                for tm, rots in (([t0, t1], ((0, 0), (0, 0), (10, 10))), (t0, ((10, 10), (0, 0), (0, 0))), ([t0, t1], None)):
                    kw = {} if rots is None else {"rotations": rots}
                    lazy = ld.construct_landscape(tm, max_shifts=2.0, upsample=1, alignment_model=ZNCCAlignment, **kw)
                    comp = np.asarray(lazy.compute())
                    if tuple(lazy.shape) != comp.shape:
                        bad.append(f"construct_landscape ({'2 templates' if isinstance(tm, list) else '1 template'}, rotations {rots}) declares shape {tuple(lazy.shape)} and computes {comp.shape}")
        except Exception as e:  # noqa
            bad.append(f"raised {type(e).__name__}: {e}")
        if bad:
            ck.violation(what=f"scheduler {sched}: " + "; ".join(bad[:3]), inp={"scheduler": sched, "n": n}, key={"site": "task-lists-together", "symptom": bad[0].split(" ")[0]},
                         oracle="task_lists_together")


def halves_partition(stack, hs):
    """the two half maps are plain means over two disjoint, jointly exhaustive, non-empty parts of the given sub-volumes (membership
    recovered by least squares: weight 1/k on the k members of a half, 0 elsewhere)"""
    n = len(stack)
    A = np.stack([np.asarray(h_).ravel() for h_ in stack]).T.astype(np.float64)
    if np.linalg.matrix_rank(A) < n:
        return True            # (sub-volumes not independent: membership cannot be read off)
    W, *_ = np.linalg.lstsq(A, np.stack([np.asarray(hs[0]).ravel(), np.asarray(hs[1]).ravel()]).T.astype(np.float64), rcond=None)
    memb = W > 1e-3
    ok = bool(np.all(memb.sum(axis=1) == 1) and memb[:, 0].any() and memb[:, 1].any())
    for h in (0, 1):
        k = int(memb[:, h].sum())
        ok = ok and k > 0 and bool(np.allclose(W[memb[:, h], h], 1.0 / k, atol=1e-3)) and bool(np.allclose(W[~memb[:, h], h], 0.0, atol=1e-3))
    return ok


def oracle_stack_chunk_size(ck, rng):
    """the stack of sub-volumes is cut into blocks according to dask's `array.chunk-size`; averages (plain, split, grouped) and apply do not
    depend on that setting: every result equals the one computed from the sub-volumes loaded one by one"""
    import dask
    import dask.array as da
    from acryo import SubtomogramLoader, Molecules
    from scipy.spatial.transform import Rotation
    tomo = (rng.normal(size=(26, 26, 26)) * 5 + 20).astype(np.float32)
    n = 25
    mol = Molecules(rng.uniform(8, 17, size=(n, 3)), Rotation.random(n, random_state=int(rng.integers(0, 2**31))), features={"g": [j % 3 for j in range(n)]})
    for img, iname in ((tomo, "numpy"), (da.from_array(tomo, chunks=(13, 13, 26)), "dask")):
        ld = SubtomogramLoader(img, mol, order=1, output_shape=(8, 8, 8))
        ref = np.stack([np.asarray(ld.load(i)) for i in range(n)])
        for cs in ("128MiB", "32KiB", "20KiB", "3KiB"):
            ck.oracle_count("stack_chunk_size", 1, 1)
            bad = []
            try:
                with dask.config.set({"array.chunk-size": cs}):
                    avg = np.asarray(ld.average())
                    hs = np.asarray(ld.average_split(n_set=1, seed=2, squeeze=False))[0]
                    ga = ld.groupby("g").average()
                    ap = ld.apply([np.mean, np.std]).to_numpy()
                    gap = ld.groupby("g").apply([np.mean, np.std, np.max])
                if not np.allclose(avg, ref.mean(axis=0), atol=1e-4): bad.append(f"average differs from the mean of the sub-volumes by {np.abs(avg - ref.mean(axis=0)).max():.3g}")
                if not halves_partition(ref, hs):
                    bad.append("half maps are not the means of two disjoint, exhaustive, non-empty parts of the sub-volumes")
                for key in ga:
                    rows = [j for j in range(n) if j % 3 == key]
                    if not np.allclose(np.asarray(ga[key]), ref[rows].mean(axis=0), atol=1e-4): bad.append(f"group {key} average differs")
                if not np.allclose(ap, np.stack([ref.reshape(n, -1).mean(axis=1), ref.reshape(n, -1).std(axis=1)], axis=1), atol=1e-4): bad.append("apply rows differ")
                for key in gap:
                    rows = [j for j in range(n) if j % 3 == key]
                    flat = ref[rows].reshape(len(rows), -1)
                    want_ = np.stack([flat.mean(axis=1), flat.std(axis=1), flat.max(axis=1)], axis=1)
                    if gap[key].shape != want_.shape or not np.allclose(gap[key].to_numpy(), want_, atol=1e-4):
                        bad.append(f"group {key}: the deferred apply table is not (mean, std, max) of that group's sub-volumes evaluated directly")
            except Exception as e:  # noqa
                bad.append(f"raised {type(e).__name__}: {e}")
            if bad:
                ck.violation(what=f"{iname} tomogram, 25 molecules, array.chunk-size = {cs}: " + "; ".join(bad[:3]), inp={"image": iname, "chunk_size": cs, "n": n},
                             key={"site": "stack-chunk-size", "symptom": bad[0].split(" ")[0]}, oracle="stack_chunk_size")


def oracle_binned_chunkings(ck, rng):
    """a binned loader is the same loader whatever the chunking of the tomogram it was binned from (regular, irregular, aligned to the bin
    size or not, one block) and whether the binned image is computed or left lazy: image, sub-volumes and average equal the numpy-backed ones"""
    import dask.array as da
    from acryo import SubtomogramLoader, BatchLoader, Molecules
    dims = (40, 41, 39)
    tomo = rng.integers(0, 50, size=dims).astype(np.float32)
    tomo2 = rng.integers(0, 50, size=dims).astype(np.float32)
    chunkings = [((13, 14, 13), (14, 13, 14), (13, 13, 13)), ((15, 15, 10), (20, 21), (39,)), (dims[0], dims[1], dims[2]), (8, 8, 8), (6, 9, 12),
                 ((2, 38), (40, 1), (1, 38)), (7, 5, 11)]
    for b in (2, 3):
        pos = rng.integers(5, 11, size=(4, 3)).astype(float) * b + (b - 1) / 2
        mol = Molecules(pos)
        ref = SubtomogramLoader(tomo, mol, order=1, scale=1.0, output_shape=(3, 3, 3)).binning(b, compute=True)
        ref_img = np.asarray(ref.image)
        ref_sub = np.stack([np.asarray(ref.load(i)) for i in range(4)])
        for ci, ch in enumerate(chunkings):
            for compute in (False, True):
                for kind in ("single", "batch"):
                    if kind == "batch" and (ci + int(compute)) % 2:
                        continue
                    ck.oracle_count("binned_chunkings", 1, 1)
                    bad = None
                    try:
                        img = da.from_array(tomo, chunks=ch)
                        if kind == "single":
                            lb = SubtomogramLoader(img, mol, order=1, scale=1.0, output_shape=(3, 3, 3)).binning(b, compute=compute)
                            got_img = np.asarray(lb.image)
                            got_sub = np.stack([np.asarray(lb.load(i)) for i in range(4)])
                        else:
                            bl = BatchLoader(order=1, scale=1.0, output_shape=(3, 3, 3))
                            bl.add_tomogram(tomo2, mol, image_id=0)
                            bl.add_tomogram(img, mol, image_id=1)
                            lb = bl.binning(b, compute=compute)
                            got_img = np.asarray(lb.images[1])
                            got_sub = np.stack([np.asarray(lb.load(i)) for i in range(4, 8)])
                        if got_img.shape != ref_img.shape:
                            bad = f"binned image has shape {got_img.shape}, the numpy-backed one {ref_img.shape}"
                        elif not np.array_equal(got_img, ref_img):
                            bad = f"binned image differs from the numpy-backed one in {int((got_img != ref_img).sum())} voxels"
                        elif not np.allclose(got_sub, ref_sub, atol=1e-4):
                            bad = f"sub-volumes of the binned loader differ from the numpy-backed ones by {float(np.abs(got_sub - ref_sub).max()):.3g}"
                        elif kind == "single" and not np.allclose(np.asarray(lb.average()), ref_sub.mean(axis=0), atol=1e-3):
                            bad = "average of the binned loader differs from the mean of the numpy-backed sub-volumes"
                    except Exception as e:  # noqa
                        bad = f"raised {type(e).__name__}: {e}"
                    if bad:
                        ck.violation(what=f"{kind} loader, tomogram {dims} in chunks {ch}, binning({b}, compute={compute}): {bad}",
                                     inp={"kind": kind, "dims": list(dims), "chunks": [list(c) if isinstance(c, tuple) else c for c in ch], "binsize": b, "compute": compute},
                                     key={"site": "binned-chunkings", "kind": kind, "binsize": b, "symptom": bad.split(" ")[0]}, oracle="binned_chunkings")


def run(ck: common.Check):
    ck.design_ref = "DESIGN.md §6 C10"
    ck.trusted_base = TB
    ck.partial = ["real pre-emptive interleavings inside C extensions and dask's own scheduler are not modelled; the cache theorem is over "
                  "the atomic dict operations of TemplateMaskCache.get/set, replayed with a cooperative lock-step scheduler",
                  "lru_cache'd helper grids are assumed read-only (not modified by tasks): exercised by the scheduler matrix oracle"]
    a = Anchors(common.REPO)
    anchors(a)
    ck.write_anchors(PID, a)
    ck.build(["C10"], ["C10/Property.v"], extra=["C10/Model.v"])
    rng = np.random.default_rng(ck.seed + 1010)
    corr_cache(ck, rng)
    corr_shapes(ck, rng)
    oracle_schedulers(ck, rng)
    oracle_shared_state(ck, rng)
    oracle_batch_backing(ck, np.random.default_rng(ck.seed + 101010))
    oracle_imread_and_mock(ck, np.random.default_rng(ck.seed + 10101))
    oracle_border_chunking(ck, np.random.default_rng(ck.seed + 1001))
    oracle_stack_chunk_size(ck, np.random.default_rng(ck.seed + 1002))
    oracle_task_lists_together(ck, np.random.default_rng(ck.seed + 1003))
    oracle_binned_chunkings(ck, np.random.default_rng(ck.seed + 1004))


def replay_file(data):
    print(json.dumps(data.get("input"), indent=1)[:4000])
    return 0


replay = replay_file if False else replay

TB = [
    "Coq 8.16.1 kernel + coqc; vm_compute for the witness schedule and the correspondence",
    "axioms: none expected; see coverage.assumptions_printed",
    "structural anchors: Backend defines __eq__; TemplateMaskCache.get/set operation sequence; constructor fills the cache; "
    "translator: declared landscape length",
    "assumed: CPython dict.get / __setitem__ / iter / next are atomic under the GIL; a dict values-iterator raises RuntimeError on next() "
    "if the dict size changed since iter(); dask compute returns results in task-list order",
]
