"""C12 — table operations keep a molecule's position, orientation and features together."""
from __future__ import annotations
import ast
import json
import numpy as np
from fractions import Fraction

import common
from common import zl, ql, bl, lst, zlist, qlist, frac, natl
from translate import Anchors
from props.C11 import norm

PID = "C12"
MC = "acryo/molecules/core.py"


def anchors(a: Anchors):
    a.state("molecules_store_only_pos_rot_features", "acryo/molecules/core.py",
            {"Molecules": ["_pos", "_rotator", "_features", "features", "class:groupby"]},
            "a Molecules object stores positions, rotator and feature table and nothing derived from them (no memo that could go stale)")
    a.fresh("table_operations_return_new_objects",
            [(MC, "Molecules." + m_) for m_ in ("subset", "filter", "sort", "head", "tail", "sample", "concat_with", "with_features", "drop_features", "copy",
                                                "translate", "translate_internal", "translate_random", "rotate_by", "rotate_by_rotvec", "rotate_by_rotvec_internal",
                                                "rotate_by_quaternion", "rotate_by_matrix", "rotate_by_euler_angle", "rotate_random", "linear_transform")]
            + [(MC, "Molecules.concat"), (MC, "Molecules.from_dataframe")],
            "no table operation returns its receiver (except the documented copy=False forms): a result never aliases its input")
    a.fact("subset_int_is_unit_slice", MC, "Molecules.subset", "int spec -> slice(spec, spec+1); negative / out of range rejected",
           lambda fn: all(t in norm(ast.unparse(fn)) for t in ["ifspec<0:raiseIndexError(", "ifspec>=len(self):raiseIndexError(",
                                                               "_spec=slice(spec,spec+1)", "pos=self.pos[_spec]",
                                                               "quat=self.quaternion(canonical=False)[_spec]"]))
    a.fact("concat_self_first", MC, "Molecules.concat_with", "np.concatenate([self.pos, other.pos]) etc.",
           lambda fn: all(t in norm(ast.unparse(fn)) for t in ["pos=np.concatenate([self.pos,other.pos],axis=0)",
                                                               "rot=np.concatenate([self.quaternion(),other.quaternion()],axis=0)",
                                                               "feat=pl.concat([self.features,other.features],how=how)"]))
    a.fact("via_dataframe_filter", MC, "Molecules.filter", "df.filter(predicate) -> from_dataframe",
           lambda fn: all(t in norm(ast.unparse(fn)) for t in ["df=self.to_dataframe()", "df_filt=df.filter(predicate)",
                                                               "returnself.__class__.from_dataframe(df_filt)"]))
    for nm_, frag in (("head", "df.head(n)"), ("tail", "df.tail(n)"), ("sample", "df.sample(n,seed=seed)"),
                      ("sort", "df.sort(by,*more_by,descending=descending)")):
        a.fact(f"via_dataframe_{nm_}", MC, f"Molecules.{nm_}", frag,
               lambda fn, f=frag: "df=self.to_dataframe()" in norm(ast.unparse(fn)) and ("self.__class__.from_dataframe(" + f + ")") in norm(ast.unparse(fn)))
    a.fact("cutby_maintains_order", MC, "Molecules.cutby", "feature.cut(bins); group_by([cat], maintain_order=True)",
           lambda fn: all(t in norm(ast.unparse(fn)) for t in ["cat=feature.cut(bins).alias(cat_name)", "df.group_by([cat_name],maintain_order=True)"]))
    a.fact("append_rejects_extra", MC, "Molecules.append", "raise ValueError on extra columns",
           lambda fn: "iflen(feat.columns)!=len(self.features.columns)" in norm(ast.unparse(fn)) and "raiseValueError(" in norm(ast.unparse(fn)))
    a.fact("to_dataframe_rejects_dup", MC, "Molecules.to_dataframe", "feature names colliding with coordinate columns rejected",
           lambda fn: "if(dup:=set(self.features.columns).intersection(_CSV_COLUMNS)):raiseValueError(" in norm(ast.unparse(fn)))


# --------------------------------------------------------------------------
BINS = [Fraction(3, 2), Fraction(7, 2), Fraction(6)]


def make(tags, vs):
    from acryo import Molecules
    from scipy.spatial.transform import Rotation
    tags = np.asarray(tags, dtype=float)
    if len(tags) == 0:
        return Molecules(np.zeros((0, 3)))
    pos = np.stack([tags, 2 * tags, 3 * tags], axis=1) if len(tags) else np.zeros((0, 3))
    rot = Rotation.from_rotvec(np.stack([tags * 0.01, np.zeros_like(tags), np.zeros_like(tags)], axis=1)) if len(tags) else None
    import polars as pl
    feats = pl.DataFrame({"tag": pl.Series([int(t) for t in tags], dtype=pl.Int64), "v": pl.Series([int(v) for v in vs], dtype=pl.Int64),
                          "f": pl.Series([float(t) / 4 for t in tags], dtype=pl.Float64),
                          "s": pl.Series([f"t{int(t)}" for t in tags], dtype=pl.String), "b": pl.Series([bool(int(t) % 2) for t in tags], dtype=pl.Boolean),
                          "nul": pl.Series([None if int(t) % 3 == 0 else int(t) for t in tags], dtype=pl.Int64)})   # typed nullable column
    return Molecules(pos, rot, features=feats)


def decode(m):
    """rows decoded from positions + consistency of the three containers"""
    n = len(m)
    tp = np.round(m.pos[:, 0]).astype(int).tolist() if n else []
    ok = True
    if n:
        ok &= bool(np.allclose(m.pos, np.stack([tp, 2 * np.array(tp), 3 * np.array(tp)], axis=1), atol=1e-3))
        rv = m.rotvec()
        tr = np.round(rv[:, 0] / 0.01).astype(int).tolist()
        ok &= tr == tp and bool(np.allclose(rv[:, 1:], 0, atol=1e-6))
    f = m.features
    ok &= (len(f) == n) or (n == 0)
    ok &= len(m.rotator) == n if n else True
    vs = [0] * n
    if n and len(f.columns):
        ok &= f["tag"].to_list() == tp
        ok &= [int(round(x * 4)) for x in f["f"].to_list()] == tp
        ok &= f["s"].to_list() == [f"t{t}" for t in tp]
        ok &= f["b"].to_list() == [bool(t % 2) for t in tp]
        ok &= f["nul"].to_list() == [None if t % 3 == 0 else t for t in tp]
        vs = f["v"].to_list()
    return [(t, v, Fraction(t, 4)) for t, v in zip(tp, vs)], bool(ok)


def rows_lit(rows):
    return lst([f"({zl(t)}, ({zl(v)}, {ql(f)}))" for t, v, f in rows])


def observe(m, ok, snapshots):
    if not ok:
        return f"(Obs false [] true [] [] [] [] true)", {"rejected": True}
    rows, cons = decode(m)
    gk, gt, ckk, ct = [], [], [], []
    if len(m):
        for key, sub in m.group_by("v"):
            gk.append(int(key)); gt.append(sub.features["tag"].to_list())
            cons &= decode(sub)[1]
        for edges, sub in m.drop_features("nul").cutby("f", [float(b) for b in BINS]):
            # bin index from the reported edges
            ckk.append(sum(1 for b in BINS if float(b) < edges.le) if np.isfinite(edges.le) else len(BINS))
            tg = sub.features["tag"].to_list()
            ct.append(tg)
            cons &= all(edges.gt < t / 4 <= edges.le for t in tg)
    pure = all(decode(m0) == d0 for m0, d0 in snapshots)
    return (f"(Obs true {rows_lit(rows)} {bl(cons)} {zlist(gk)} {lst([zlist(x) for x in gt])} {zlist(ckk)} {lst([zlist(x) for x in ct])} {bl(pure)})",
            {"rows": [(t, v) for t, v, _ in rows], "consistent": cons, "pure": pure})


UNEXPECTED = []


def run_history(rng, maxlen):
    import polars as pl
    from acryo import Molecules
    n0 = int(rng.integers(1, 9))
    tags = list(range(1, n0 + 1))
    vs = [int(x) for x in rng.integers(0, 4, size=n0)]
    cur = make(tags, vs)
    nexttag = n0 + 1
    rows0 = decode(cur)[0]
    snapshots = [(cur, decode(cur))]
    terms, py = [], []
    for _ in range(int(rng.integers(1, maxlen + 1))):
        n = len(cur)
        k = int(rng.integers(0, 12))
        ok, new = True, None
        try:
            if k == 0:
                i = int(rng.integers(-2, n + 2)); term = f"OSubInt {zl(i)}"; p = ["subset-int", i]
                new = cur.subset(i) if rng.random() < 0.5 else cur[i]
            elif k == 1:
                a = int(rng.integers(0, n + 1)); b = int(rng.integers(a, n + 2)); term = f"OSubSlice {natl(a)} {natl(b)}"; p = ["slice", a, b]
                new = cur.subset(slice(a, b))
            elif k == 2 and n:
                idx = [int(i) for i in rng.integers(0, n, size=int(rng.integers(1, n + 2)))]
                term = f"OSubIdx {lst([natl(i) for i in idx])}"; p = ["index-list", idx]
                new = cur.subset(idx if rng.random() < 0.5 else np.array(idx))
            elif k == 3:
                m = [bool(x) for x in rng.integers(0, 2, size=n)]; term = f"OSubMask {lst([bl(x) for x in m])}"; p = ["mask", m]
                new = cur.subset(np.array(m, dtype=bool)) if n else cur.subset(np.zeros(0, dtype=bool))
            elif k == 4 and n:
                a = int(rng.integers(2, 4)); b = int(rng.integers(0, a)); term = f"OFilter {zl(a)} {zl(b)}"; p = ["filter", a, b]
                new = cur.filter(pl.col("tag") % a == b)
            elif k == 5:
                m = int(rng.integers(0, n + 2)); term = f"OHead {natl(m)}"; p = ["head", m]; new = cur.head(m)
            elif k == 6:
                m = int(rng.integers(0, n + 2)); term = f"OTail {natl(m)}"; p = ["tail", m]; new = cur.tail(m)
            elif k in (7, 8):
                m = int(rng.integers(0, 4))
                ot = list(range(nexttag, nexttag + m)); nexttag += m
                ov = [int(x) for x in rng.integers(0, 4, size=m)]
                other = make(ot, ov)
                term = f"OConcat {rows_lit(decode(other)[0])}"; p = ["concat", ot]
                how = int(rng.integers(0, 3))
                if how == 0:
                    new = cur.concat_with(other)
                elif how == 1:
                    new = Molecules.concat([cur, other])
                else:
                    if len(cur) or m:
                        # in-place append on an object whose derived tables have already been used (any memo must be refreshed)
                        c2 = cur.copy()
                        _ = c2.to_dataframe(); _ = c2.head(1); _ = [g for g in c2.group_by("v")] if len(c2) else None
                        new = c2.append(other)
                        if new is not c2:
                            raise AssertionError("append did not return the same instance")
                    else:
                        new = cur.concat_with(other)
            elif k == 9 and n:
                desc = bool(rng.integers(0, 2)); term = f"OSort {bl(desc)}"; p = ["sort", desc]; new = cur.sort("v", descending=desc)
            elif k == 10 and n:
                m = int(rng.integers(1, n + 1)); term = f"OSample {natl(m)}"; p = ["sample", m]; new = cur.sample(m, seed=int(rng.integers(0, 99)))
            else:
                # with_features / drop_features: rows unchanged
                term = f"OHead {natl(n)}"; p = ["with/drop_features"]
                new = cur.with_features((pl.col("tag") * 2).alias("extra")).drop_features("extra")
        except (IndexError, ValueError) as e:
            ok = False
        except Exception as e:  # noqa  -- a valid operation on a valid table must not fail in any other way
            UNEXPECTED.append({"op": p if "p" in dir() else None, "error": f"{type(e).__name__}: {str(e)[:200]}", "history": [h[:2] for h in py]})
            break
        if ok and new is not None and len(new.features.columns) == 0 and len(new) == 0:
            # empty table lost its schema: stop this history here (still recorded)
            o, pyo = observe(new, True, snapshots)
            terms.append(f"({term}, {o})"); py.append(p + [pyo]); break
        o, pyo = observe(new, ok, snapshots)
        terms.append(f"({term}, {o})"); py.append(p + [pyo])
        if ok:
            cur = new
            snapshots.append((cur, decode(cur)))
    return f"(check_hist {qlist(BINS)} {rows_lit(rows0)} {lst(terms)})", {"initial": [(t, v) for t, v, _ in rows0], "history": py}


def corr_histories(ck, rng):
    n = 120 if ck.tier == "quick" else 2000
    maxlen = 7 if ck.tier == "quick" else 25
    UNEXPECTED.clear()
    cases = [run_history(rng, maxlen) for _ in range(n)]
    for u in UNEXPECTED[:5]:
        ck.violation(what=f"table operation {u['op']} raised {u['error']} after history {u['history']}", inp=u,
                     key={"site": "history", "symptom": "raised", "op": (u["op"] or ["?"])[0]}, oracle="history_unexpected_exception")
    ops = {}
    for _, c in cases:
        for h in c["history"]:
            ops[h[0]] = ops.get(h[0], 0) + 1
    ck.corr_run("molecule_histories", ["Acryo.Common.Table", "AcryoGen.Anchors_C12", "Acryo.C12.Model"], cases, shard=40,
                observable=True, describe=lambda c: {"site": "history", "ops": [h[0] for h in c["history"]][:8]}, classes=ops)


def oracle_rejects(ck, rng):
    import polars as pl
    from acryo import Molecules
    from scipy.spatial.transform import Rotation
    probes = []
    probes.append(("rotation length mismatch", lambda: Molecules(np.zeros((3, 3)), Rotation.random(2, random_state=0)), (ValueError,)))
    probes.append(("feature length mismatch", lambda: Molecules(np.zeros((3, 3)), features={"a": [1, 2]}), (ValueError,)))
    probes.append(("feature name collides with coordinate column", lambda: Molecules(np.zeros((2, 3)), features={"z": [1, 2]}).to_dataframe(), (ValueError,)))
    probes.append(("feature name collides (filter path)", lambda: Molecules(np.zeros((2, 3)), features={"yvec": [1, 2]}).head(1), (ValueError,)))
    probes.append(("append with extra columns", lambda: make([1, 2], [0, 1]).append(Molecules(np.zeros((1, 3)), features={"tag": [9], "zzz": [1]})), (ValueError,)))
    probes.append(("negative int subset", lambda: make([1, 2], [0, 1]).subset(-1), (IndexError,)))
    probes.append(("out-of-range int subset", lambda: make([1, 2], [0, 1])[2], (IndexError,)))
    probes.append(("pos not (N,3)", lambda: Molecules(np.zeros((3, 2))), (ValueError,)))
    # a new feature named like a coordinate column: rejected at once, or at the latest by the next table operation -- and never
    # at the price of moved / re-oriented molecules
    for cname in ("z", "y", "x", "zvec", "yvec", "xvec"):
        for form in ("alias", "keyword"):
            ck.oracle_count("coordinate_name_collision", 1, 1)
            m0 = make([1, 2, 3], [0, 1, 0])
            p_before, q_before = m0.pos.copy(), m0.quaternion().copy()
            try:
                m1 = m0.with_features(pl.col("tag").cast(pl.Float64).alias(cname)) if form == "alias" else m0.with_features([], **{cname: pl.col("tag") * 2.0})
            except ValueError:
                continue
            except Exception as e:  # noqa
                ck.violation(what=f"with_features(... as {cname!r}) raised {type(e).__name__}: {e}", inp={"column": cname, "form": form},
                             key={"site": "coordinate-collision", "symptom": "raised"}, oracle="coordinate_name_collision")
                continue
            moved = not (np.allclose(m1.pos, p_before, atol=1e-6) and np.allclose(np.abs(np.sum(m1.quaternion() * q_before, axis=1)), 1.0, atol=1e-6))
            later = False
            try:
                m1.head(2)
            except ValueError:
                later = True
            if moved or not later:
                ck.violation(what=f"with_features(... as {cname!r}, {form}): " + ("positions/orientations were overwritten by the feature" if moved else
                                  "accepted, and the following table operation does not reject it either"), inp={"column": cname, "form": form},
                             key={"site": "coordinate-collision", "symptom": "moved" if moved else "accepted"}, oracle="coordinate_name_collision")
    for name, fn, exc in probes:
        ck.oracle_count("rejects_inconsistent_input", 1, 1)
        try:
            out = fn()
            ck.violation(what=f"inconsistent input accepted: {name} -> {out!r}", inp={"probe": name}, key={"site": "rejects", "probe": name},
                         oracle="rejects_inconsistent_input")
        except exc:
            pass
        except Exception as e:  # noqa
            ck.violation(what=f"{name}: raised {type(e).__name__} instead of {exc[0].__name__}: {e}", inp={"probe": name},
                         key={"site": "rejects", "probe": name}, oracle="rejects_inconsistent_input")
    # mixed presence of features: the result is either rejected or has as many feature rows as molecules (or no feature column)
    def F(n, t0=1):
        pos = np.zeros((n, 3)); pos[:, 0] = np.arange(t0, t0 + n)          # z == tag
        return Molecules(pos, features=pl.DataFrame({"tag": pl.Series("tag", list(range(t0, t0 + n)), dtype=pl.Int64),
                                                     "s": pl.Series("s", [str(i) for i in range(n)], dtype=pl.Utf8)}))
    def N(n): return Molecules(np.zeros((n, 3)))
    mixed = []
    for a_ in (0, 1, 2, 5):
        for b_ in (0, 1, 3):
            mixed += [(f"featureless[{a_}].append(featured[{b_}])", lambda a_=a_, b_=b_: N(a_).append(F(b_)), a_ + b_),
                      (f"featured[{a_}].append(featureless[{b_}])", lambda a_=a_, b_=b_: F(a_).append(N(b_)), a_ + b_),
                      (f"featureless[{a_}].concat_with(featured[{b_}])", lambda a_=a_, b_=b_: N(a_).concat_with(F(b_)), a_ + b_),
                      (f"featured[{a_}].concat_with(featureless[{b_}])", lambda a_=a_, b_=b_: F(a_).concat_with(N(b_)), a_ + b_),
                      (f"concat([featured[{a_}], featureless[{b_}], featured[1]])", lambda a_=a_, b_=b_: Molecules.concat([F(a_), N(b_), F(1, 50)]), a_ + b_ + 1)]
    for name, fn, total in mixed:
        ck.oracle_count("mixed_feature_presence", 1, 1)
        try:
            out = fn()
        except ValueError:
            continue
        except Exception as e:  # noqa
            ck.violation(what=f"{name}: raised {type(e).__name__}: {e}", inp={"probe": name}, key={"site": "mixed-features", "symptom": "raised"}, oracle="mixed_feature_presence")
            continue
        fr = out.features
        npos, nrot = out.pos.shape[0], len(out.rotator)
        if not (npos == nrot == total and (len(fr.columns) == 0 or fr.height == npos)):
            ck.violation(what=f"{name}: {npos} positions, {nrot} orientations, {fr.height} feature rows (columns {fr.columns}); expected {total} of each",
                         inp={"probe": name}, key={"site": "mixed-features", "symptom": "row-count", "op": name.split("(")[0].split(".")[-1]}, oracle="mixed_feature_presence")
        elif len(fr.columns) and "tag" in fr.columns:
            # featured rows keep their own tag next to their own position (z == tag by construction of F)
            tg = fr["tag"].to_list()
            bad = [i for i, t in enumerate(tg) if t is not None and abs(out.pos[i, 0] - t) > 1e-6]
            if bad:
                ck.violation(what=f"{name}: feature rows {bad} no longer sit beside their own positions", inp={"probe": name},
                             key={"site": "mixed-features", "symptom": "misaligned"}, oracle="mixed_feature_presence")
    # cutby with null feature values
    ck.oracle_count("cutby_nulls", 1, 1)
    m = make([1, 2, 3, 4, 5, 6], [0, 1, 0, 1, 0, 1])
    try:
        got = [(e, s.features["tag"].to_list()) for e, s in m.cutby("nul", [2.5, 4.5])]
        tags = sorted(t for _, g in got for t in g)
        if tags != [1, 2, 3, 4, 5, 6]:
            ck.violation(what=f"cutby on a nullable feature lost rows: {tags}", inp={"feature": "nul", "bins": [2.5, 4.5]},
                         key={"site": "cutby", "null_category": True, "symptom": "lost-rows"}, oracle="cutby_nulls")
    except Exception as e:  # noqa
        ck.violation(what=f"cutby on a feature containing nulls raised {type(e).__name__}: {e}", inp={"feature": "nul", "bins": [2.5, 4.5]},
                     key={"site": "cutby", "null_category": True, "symptom": "raised"}, oracle="cutby_nulls")
    # long chains: orientation drift
    ck.oracle_count("orientation_drift", 1, 1)
    m = make(list(range(1, 30)), [i % 4 for i in range(29)])
    cur = m
    for i in range(40):
        cur = cur.sort("v", descending=bool(i % 2)).head(29).filter(pl.col("tag") > 0)
    rows, cons = decode(cur)
    if not cons or sorted(t for t, _, _ in rows) != list(range(1, 30)):
        ck.violation(what="a chain of 120 sort/head/filter calls broke row consistency", inp={}, key={"site": "drift"}, oracle="orientation_drift")


def oracle_no_aliasing(ck, rng):
    """a table operation that happens to keep every row still returns a new molecule set: changing the result in place (append,
    translate / rotate with copy=False, assigning features) never changes the input, and vice versa"""
    import polars as pl
    from acryo import Molecules
    n = int(rng.integers(3, 7))
    tags = [int(x) for x in rng.permutation(np.arange(1, 30))[:n]]
    vs = [1] * n
    ops = {
        "filter(all true)": lambda m: m.filter(pl.col("tag") > 0),
        "filter(mask all true)": lambda m: m.filter(np.ones(len(m), dtype=bool)) if False else m.filter(pl.lit(True)),
        "subset(all)": lambda m: m.subset(list(range(len(m)))),
        "subset(slice)": lambda m: m.subset(slice(None)),
        "subset(mask)": lambda m: m.subset(np.ones(len(m), dtype=bool)),
        "sort(already sorted)": lambda m: m.sort("v"),
        "head(n)": lambda m: m.head(len(m)),
        "tail(n)": lambda m: m.tail(len(m)),
        "head(n + 3)": lambda m: m.head(len(m) + 3),
        "sample(n)": lambda m: m.sample(len(m), seed=1).sort("tag") if False else m.sample(len(m), seed=1),
        "with_features([])": lambda m: m.with_features([]),
        "drop_features([])": lambda m: m.drop_features([]),
        "concat([m])": lambda m: Molecules.concat([m]),
        "concat_with(empty)": lambda m: m.concat_with(Molecules.empty(), nullable=True) if False else m.concat_with(make([], [])),
        "copy": lambda m: m.copy(),
        "group_by(one group)": lambda m: list(m.group_by("v"))[0][1],
        "translate(0)": lambda m: m.translate([0.0, 0.0, 0.0]),
        "translate_internal(0)": lambda m: m.translate_internal([0.0, 0.0, 0.0]),
        "rotate_by_rotvec(0)": lambda m: m.rotate_by_rotvec([0.0, 0.0, 0.0]),
    }
    extra = make([77], [5])
    for name, op in ops.items():
        for who in ("result", "input"):
            m = make(tags, vs)
            before = decode(m)
            ck.oracle_count("no_aliasing", 1, 1)
            try:
                r = op(m)
                rb = decode(r)
                tgt, other, ob = (r, m, before) if who == "result" else (m, r, rb)
                tgt.append(extra)
                tgt.translate([1.0, 2.0, 3.0], copy=False)
                tgt.features = tgt.features.with_columns(pl.col("v") + 100)
                bad = None
                if decode(other) != ob:
                    bad = f"changing the {who} in place (append, translate(copy=False), features=) changed the {'input' if who == 'result' else 'result'} too"
            except Exception as e:  # noqa
                bad = None if name in ("concat_with(empty)", "sample(n)") and isinstance(e, (ValueError, TypeError)) else f"raised {type(e).__name__}: {e}"
            if bad:
                ck.violation(what=f"{name}: {bad}", inp={"operation": name, "changed": who, "tags": tags}, key={"site": "aliasing", "op": name.split("(")[0]}, oracle="no_aliasing")


def oracle_feature_names(ck, rng):
    """feature names that contain one another, or that look like the library's temporary columns, are ordinary names: drop_features removes
    exactly the named columns (and rejects unknown ones), cutby / group_by keep every feature of every row"""
    import polars as pl
    from acryo import Molecules
    n = 8
    tags = list(range(1, n + 1))
    m0 = make(tags, [t % 3 for t in tags])
    extra = {"id": [10 * t for t in tags], "pf-id": [t % 2 for t in tags], "score": [t / 8 for t in tags], "score_std": [t / 80 for t in tags],
             ".category": [f"c{t}" for t in tags], ".index": [100 + t for t in tags], "cat": [t % 4 for t in tags]}
    m = m0.with_features([pl.Series(k_, v_) for k_, v_ in extra.items()])
    fails = []
    try:
        base_cols = list(m.features.columns)
        for drop in ("pf-id", "score_std", ".category", "id", ["score_std", "pf-id"], ("id",)):
            names = [drop] if isinstance(drop, str) else list(drop)
            out = m.drop_features(drop) if isinstance(drop, str) or isinstance(drop, list) else m.drop_features(*drop)
            want = [c for c in base_cols if c not in names]
            if list(out.features.columns) != want:
                fails.append(f"drop_features({drop!r}) left columns {list(out.features.columns)} instead of {want}")
            elif not out.features.equals(m.features.select(want)) or decode(out.drop_features([c for c in want if c in extra]))[0] != decode(m0)[0]:
                fails.append(f"drop_features({drop!r}) changed the values of the remaining features")
        try:
            m.drop_features("no-such-feature")
            fails.append("drop_features of an unknown name accepted")
        except Exception:  # noqa
            pass
        pieces = []
        for edges, sub in m.drop_features("nul").cutby("f", [float(b) for b in BINS]):
            if list(sub.features.columns) != [c for c in base_cols if c != "nul"]:
                fails.append(f"cutby group has columns {list(sub.features.columns)}")
            pieces.append(sub)
        cat_ = Molecules.concat(pieces)
        if sorted(cat_.features["tag"].to_list()) != tags or not cat_.features.sort("tag").equals(m.drop_features("nul").features.sort("tag")):
            fails.append("concatenating the cutby groups does not give back the rows of the input (with a feature named '.category')")
        # a grouping key that is null for some molecules: those molecules form a group too (group_by partitions the input)
        got_tags = []
        for key, sub in m.group_by("nul"):
            got_tags += sub.features["tag"].to_list()
            kv = key[0] if isinstance(key, tuple) else key
            want_rows = m.features.filter(pl.col("nul").is_null() if kv is None else (pl.col("nul") == kv))
            if not sub.features.equals(want_rows):
                fails.append(f"group_by('nul') group {key!r} is not the rows of the input with that key")
        if sorted(got_tags) != tags:
            fails.append(f"group_by on a key with nulls loses or duplicates molecules: tags {sorted(got_tags)} of {tags}")
        for key, sub in m.group_by("cat"):
            if list(sub.features.columns) != base_cols or not sub.features.equals(m.features.filter(pl.col("cat") == key)):
                fails.append(f"group_by group {key} is not the selected rows of the input")
    except Exception as e:  # noqa
        fails.append(f"raised {type(e).__name__}: {e}")
    ck.oracle_count("feature_names", 1, 1)
    for f in fails[:3]:
        ck.violation(what=f, inp={"features": list(extra)}, key={"site": "feature-names", "symptom": f[:30]}, oracle="feature_names")


def run(ck: common.Check):
    ck.design_ref = "DESIGN.md §6 C12"
    ck.trusted_base = TB
    ck.partial = ["polars sort/sample/cut internals are kernels: validated as relations, not predicted",
                  "float32 rotvec round trip through the data frame is tolerated at 1e-6 rad (tag encoding step 0.01 rad)"]
    a = Anchors(common.REPO)
    anchors(a)
    ck.write_anchors(PID, a)
    ck.build(["C12"], ["C12/Property.v"])
    rng = np.random.default_rng(ck.seed + 1212)
    corr_histories(ck, rng)
    oracle_rejects(ck, rng)
    oracle_no_aliasing(ck, np.random.default_rng(ck.seed + 12012))
    oracle_feature_names(ck, np.random.default_rng(ck.seed + 12112))


def replay(data):
    print(json.dumps(data.get("input"), indent=1)[:4000])
    return 0


TB = [
    "Coq 8.16.1 kernel + coqc; vm_compute for Examples and correspondence",
    "axioms: none expected; see coverage.assumptions_printed",
    "structural anchors (translate.py facts) for Molecules.subset/concat_with/filter/head/tail/sample/sort/cutby/append/to_dataframe",
    "assumed kernel laws: numpy fancy/boolean/slice indexing, polars filter/head/tail/concat keep order, group_by(maintain_order), "
    "Series.cut uses right-closed intervals",
]
